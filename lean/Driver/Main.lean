import SciVerif.Tie.Task
import SciVerif.Model.Fmt
import SciVerif.Tie.C20Sem
import SciVerif.Model.Components
import SciVerif.Tie.ProcSem
import SciVerif.Tie.RunSem
import SciVerif.Model.Chan
import SciVerif.Tie.C12Sem
import SciVerif.Model.Net
import SciVerif.Model.NetVal
import SciVerif.Model.NetPorts
/-!
Line-protocol driver (Tie B): one request per line on stdin (tab separated), one response line.
It runs the *executable models*, instantiated with the semantics records Tie A regenerated from
the current source, so the Go harness can compare the real code with the model and the search
can look for a failing input when an obligation breaks.
-/
open SciVerif SciVerif.Tie

def joinWith (sep : String) (l : List String) : String := sep.intercalate l

def showOp : TaskFS.TaskOp → String
  | .checkTempDir => "checkTempDir" | .skipIfOutputs => "skipIfOutputs" | .acquire => "acquire"
  | .mkdirs => "mkdirs" | .run => "run" | .writeAudit => "writeAudit" | .ensureOutputs => "ensureOutputs"
  | .finalize => "finalize" | .release => "release" | .signalDone => "signalDone" | .unknown => "unknown"

def showFin : TaskFS.FinOp → String
  | .renameDeclared => "renameDeclared" | .moveExtras => "moveExtras" | .removeTemp => "removeTemp" | .unknown => "unknown"

def showPK : TaskFS.PathKind → String | .temp => "temp" | .final => "final" | .other => "other"

def semLine : String :=
  let s := taskSem
  s!"ops={joinWith "," (s.ops.map showOp)};fin={joinWith "," (s.fin.map showFin)};cmdFailFatal={s.cmdFailFatal};oPlace={showPK s.oPlace};renameSrcTemp={s.renameSrcTemp};streamsExempt={s.streamsExempt};locked={slotSem.locked};slotCounts={slotCounts};coresCheckFirst={coresCheckFirst}"

/-! ## slots: exhaustive search over schedules (search support only, never a proof) -/
namespace SlotSearch
open Slots

structure Res where
  states : Nat
  trans  : Nat
  bad    : Option (String × List Nat)
deriving Inhabited

partial def bfs (sem : SlotSem) (max : Nat) (frontier : List (List Task × List Nat)) (seen : List (List Task))
    (states trans : Nat) (limit : Nat) : Res :=
  match frontier with
  | [] => { states := states, trans := trans, bad := none }
  | (ts, path) :: rest =>
    let s : St := { max := max, tasks := ts }
    if running ts > max then { states := states, trans := trans, bad := some ("overbound", path.reverse) }
    else
      let sc := succs sem s
      if sc.isEmpty && !(allDone s) then { states := states, trans := trans, bad := some ("deadlock", path.reverse) }
      else if states > limit then { states := states, trans := trans, bad := none }
      else
        let (fr, seen', n) := sc.foldl (fun (acc : List (List Task × List Nat) × List (List Task) × Nat) (i, s') =>
          let (fr, sn, n) := acc
          if sn.contains s'.tasks then (fr, sn, n) else ((s'.tasks, i :: path) :: fr, s'.tasks :: sn, n + 1)) ([], seen, 0)
        bfs sem max (rest ++ fr.reverse) seen' (states + n) (trans + sc.length) limit

def search (locked : Bool) (max : Nat) (cores : List Nat) (limit : Nat) : Res :=
  let s0 := init max cores
  bfs ⟨locked⟩ max [(s0.tasks, [])] [s0.tasks] 1 0 limit
end SlotSearch

def parseNats (s : String) : List Nat :=
  if s.isEmpty then [] else (s.splitOn ",").filterMap (·.toNat?)

/-! ## task model simulation -/
namespace TaskSim
open TaskFS

def parseActs (s : String) : List Act :=
  if s.isEmpty then [] else (s.splitOn ",").filterMap fun a =>
    match a.splitOn ":" with
    | ["w", p, ch] => match p.toNat?, ch.toNat? with | some p, some ch => some (.write p ch) | _, _ => none
    | ["x", n, ch] => match n.toNat?, ch.toNat? with | some n, some ch => some (.extra n ch) | _, _ => none
    | _ => none

def parseExit (s : String) : Exit := if s == "ok" then .ok else if s == "killed" then .killed else .code

def showFile (o : Option File) : String :=
  match o with
  | none => "-"
  | some f => s!"{if f.fresh then "new" else "pre"}:{if f.complete then "complete" else "partial"}:{joinWith "." (f.chunks.map toString)}"

def showStatus : Status → String | .active => "active" | .done => "done" | .failed => "failed"

def showSt (c : Cfg) (s : St) : String :=
  let fin := (ports c).map fun p => showFile (s.finalOut p)
  let tmp := (ports c).map fun p => showFile (s.tempOut p)
  s!"status={showStatus s.status};skipped={s.skipped};executed={s.executed};tmp={s.tmp};final={joinWith "|" fin};temp={joinWith "|" tmp};moved={s.moved.length};extras={s.extras.length}"

/-- run to completion (bounded by fuel) or for exactly n steps -/
def sim (sem : Sem) (c : Cfg) (pre : Nat → Option File) (n : Nat) : St := stepN sem c n (init sem c pre)

/-- a history: list of attempts; each attempt runs `n` steps (crash) then optional cleanup; last runs to the end -/
def history (sem : Sem) (c : Cfg) (pre : Nat → Option File) (attempts : List (Nat × Bool)) : St :=
  let s0 := init sem c pre
  let s := attempts.foldl (fun s (n, clean) =>
    let s1 := stepN sem c n s
    let s2 := if clean then cleanup s1 else s1
    restart sem s2) s0
  stepN sem c 1000 s

/-- run the model until `pred` holds of the current state (checked before each step) -/
def runUntil (sem : Sem) (c : Cfg) (pred : St → Bool) : Nat → St → Option St
  | 0, s => if pred s then some s else none
  | n+1, s => if pred s then some s else
      match step sem c s with
      | none => none
      | some s' => runUntil sem c pred n s'

def atOp (op : TaskOp) (s : St) : Bool :=
  s.finpc.isNone && (match s.cmd with | .inRun _ => false | _ => true) && s.pc.head? == some op

/-- the model state that corresponds to the real task having reached hook `pt` (for the j-th time) -/
def stateAt (sem : Sem) (c : Cfg) (pre : Nat → Option File) (pt : String) (j : Nat) : Option St :=
  let s0 := init sem c pre
  let go := fun pred => runUntil sem c pred 400 s0
  if pt == "in.tmpcheck" then go (atOp .checkTempDir)
  else if pt == "in.outcheck" then go (atOp .skipIfOutputs)
  else if pt == "inc.enter" then go (atOp .acquire)
  else if pt == "in.mkdirs" then go (atOp .mkdirs)
  else if pt == "in.cmd.before" then go (atOp .run)
  else if pt == "in.cmd.after" then go (fun s => s.executed > 0 && ((match s.cmd with | .inRun _ => false | _ => true) || s.status == .failed))
  else if pt == "in.audit" then go (atOp .writeAudit)
  else if pt == "in.ensure" then go (atOp .ensureOutputs)
  else if pt == "in.finalize" then go (atOp .finalize)
  else if pt == "dec.enter" then go (atOp .release)
  else if pt == "fin.renamed" then
    go (fun s => match s.finpc with
      | some f => f.todo.head? == some .renameDeclared && f.ports.length + j == (nonStreamPorts c).length
      | none => false)
  else if pt == "fin.rmtmp.before" then go (fun s => match s.finpc with | some f => f.todo.head? == some .removeTemp | none => false)
  else if pt == "fin.rmtmp.after" then
    go (fun s => s.executed > 0 && !s.tmp && (match s.finpc with | some f => f.todo.head? != some .removeTemp | none => true) && s.okRuns > 0)
  else if pt == "end" then some (stepN sem c 1000 s0)
  else none

/-- search all small configurations for a C01 violation of the given record -/
def c01Search (sem : Sem) : Option String :=
  let behs : List Behaviour := [⟨[.write 0 1], .ok⟩, ⟨[.write 0 1], .code⟩, ⟨[.write 0 1, .write 0 2], .killed⟩, ⟨[], .ok⟩, ⟨[], .code⟩,
                               ⟨[.write 0 1, .write 1 2], .ok⟩, ⟨[.write 0 1, .write 1 2], .code⟩, ⟨[.write 1 2], .ok⟩]
  let cfgs : List Cfg := behs.flatMap fun b => [⟨[false], b⟩, ⟨[false, false], b⟩]
  let found := cfgs.findSome? fun c =>
    (List.range 40).findSome? fun n =>
      let s := sim sem c (fun _ => none) n
      (ports c).findSome? fun p =>
        match s.finalOut p with
        | some f => if f.fresh && (!f.complete || c.beh.exit != .ok) then
            some s!"streams={c.streams.length} acts={c.beh.acts.length} exit={repr c.beh.exit} steps={n} port={p} file={showFile (some f)}"
          else none
        | none => none
  found
end TaskSim

/-! ## pure string requests -/
namespace Pure
open Str Fmt

def US : String := "\x1f"
def RS : String := "\x1e"
def GS : String := "\x1d"

def lst (s : String) : List String := if s.isEmpty then [] else s.splitOn US
def kvs (s : String) : List (S × S) :=
  (lst s).filterMap fun item => match item.splitOn RS with
    | [k, v] => some (k.toList, v.toList)
    | _ => none
def kvl (s : String) : List (S × List S) :=
  (lst s).filterMap fun item => match item.splitOn RS with
    | [k, v] => some (k.toList, (if v.isEmpty then [] else v.splitOn GS).map String.toList)
    | _ => none
def str (s : S) : String := String.ofList s
def showB (b : Bool) : String := if b then "1" else "0"

def fmtEnv (pattern : String) (ins subs outs params tags prepend : String) : Env :=
  { portInfos := discoverPorts pattern.toList, inPaths := kvs ins, inStream := [], subs := kvl subs,
    outPaths := kvs outs, params := kvs params, tags := kvs tags, prepend := prepend.toList }

end Pure

/-! ## audit reports -/
namespace Rep
open Report

/-- parse a pre-order token list `id:start:nchildren ...` into a tree -/
def parseTree : Nat → List String → Option (AT × List String)
  | 0, _ => none
  | fuel + 1, tok :: rest =>
    match tok.splitOn ":" with
    | [i, s, n] =>
      match i.toNat?, s.toNat?, n.toNat? with
      | some i, some s, some n =>
        let rec kids (k : Nat) (toks : List String) (acc : List AT) : Option (List AT × List String) :=
          match k with
          | 0 => some (acc.reverse, toks)
          | k + 1 => match parseTree fuel toks with
            | some (t, toks') => kids k toks' (t :: acc)
            | none => none
        match kids n rest [] with
        | some (ups, rest') => some (.node ⟨i, s, i⟩ ups, rest')
        | none => none
      | _, _, _ => none
    | _ => none
  | _, [] => none

def parseRecs (s : String) : List Rec :=
  (if s.isEmpty then [] else s.splitOn ",").filterMap fun it =>
    match it.splitOn ":" with
    | [i, st] => match i.toNat?, st.toNat? with | some i, some st => some ⟨i, st, i⟩ | _, _ => none
    | _ => none

def semOf (s : String) : SortSem :=
  if s == "src" then Tie.sortSem else if s == "timeMap" then .timeMap else if s == "sliceSort" then .sliceSort else .other
end Rep

/-! ## process main loop: bounded search for an order violation (search support only) -/
namespace ProcSearch
open Proc

def bad (s : PSt) : Bool := !(s.forwarded.isPrefixOf s.accepted) || !s.early.isEmpty

partial def dfs (sem : ProcSem) (n : Nat) (s : PSt) (next : Nat) (path : List String) (depth : Nat) : Option (List String) × Nat :=
  if bad s then (some path.reverse, 1)
  else if depth == 0 then (none, 1)
  else
    (enabled s next n).foldl (fun (acc : Option (List String) × Nat) l =>
      match acc.1 with
      | some _ => acc
      | none =>
        match step sem s l with
        | none => acc
        | some s' =>
          let nx := match l with | .accept _ => next + 1 | _ => next
          let nm := match l with | .accept t => s!"accept{t}" | .offer i => s!"offer{i}" | .take i => s!"take{i}"
          let r := dfs sem n s' nx (nm :: path) (depth - 1)
          (r.1, acc.2 + r.2)) (none, 1)
end ProcSearch

/-! ## channel model: exhaustive interleavings for small parameters (search support only) -/
namespace ChanSearch
open Chan

partial def explore (B : Nat) (streams : List (List Nat)) (st : ChSt) (seen : List ChSt) : List ChSt × Option String :=
  if seen.contains st then (seen, none) else
  let seen := st :: seen
  let labels : List Label := [.recv] ++ (List.range streams.length).flatMap fun s => [.send s, .close s]
  let succs := labels.filterMap fun l => step B st l
  if succs.isEmpty then
    -- terminal: must be finished with everything delivered in per-sender order
    let ok := finished st && (List.range streams.length).all fun s => ((st.got.filter (·.1 = s)).map (·.2)) == streams.getD s []
    (seen, if ok then none else some s!"stuck-or-lossy got={repr st.got} todo={repr st.todo}")
  else
    succs.foldl (fun (acc : List ChSt × Option String) s' =>
      match acc.2 with
      | some _ => acc
      | none => explore B streams s' acc.1) (seen, none)
end ChanSearch

namespace NetRun
open SciVerif.Net

/-- greedy maximal run of the network counting model (support code for the correspondence check) -/
def maximal {n : Nat} (net : Net n) : Nat → NSt n → Nat → NSt n × Nat
  | 0, s, k => (s, k)
  | fuel + 1, s, k =>
    match (allLbls n).findSome? (fun l => step net s l) with
    | none => (s, k)
    | some s' => maximal net fuel s' (k + 1)

def mkNet (n : Nat) (ins : List (List Nat)) (src : List Nat) (B : Nat) : Net n :=
  { ins := fun v => ((ins.getD v.val []).filterMap fun u => if h : u < n then some ⟨u, h⟩ else none),
    src := fun v => src.getD v.val 0, B := B }

def final (n : Nat) (ins : List (List Nat)) (src : List Nat) (B : Nat) : String :=
  let net := mkNet n ins src B
  let bound := n * (2 * (src.foldl max 0) + 1) + 1
  let r := maximal net bound (init n) 0
  let s := r.1
  let vs := List.finRange n
  s!"term={",".intercalate (vs.map fun v => if s.term v then "1" else "0")};c={",".intercalate (vs.map fun v => toString (s.c v))};f={",".intercalate (vs.map fun v => toString (s.f v))};steps={r.2};stuck={stuckB net s}"

/-! the network with values: items are files / parameter values as the harness' workflows produce them -/
structure Item where
  val   : String            -- path of the file, or the parameter value
  lines : List String       -- the file's lines
  aval   : String := ""     -- the same for the second out-port `aux` of the producing task (if it has one)
  alines : List String := []
deriving Inhabited

structure Meta where
  name  : String
  kind  : String            -- src | psrc | proc
  nfile : Nat               -- proc: number of file in-ports (a further in-port is the parameter port)
  pvals : List String       -- psrc: the values
  takes : String := ""      -- proc: per file in-port `o` (upstream's out-port `out`) or `x` (its second out-port `aux`)
  aux   : Bool := false     -- proc: has a second out-port

def taskOf (m : Meta) (items : List Item) : Item :=
  let files := ((items.take m.nfile).zip (m.takes.toList ++ List.replicate m.nfile 'o')).map fun (f, t) =>
    if t == 'x' then ({ val := f.aval, lines := f.alines } : Item) else f
  let pv := (items.drop m.nfile).head?
  let stem := m.name ++ String.join (files.map fun f => "." ++ f.val) ++ (match pv with | some p => "." ++ p.val | none => "")
  let par := match pv with | some p => "p=" ++ p.val | none => ""
  let body := files.flatMap (·.lines)
  { val := stem ++ ".o", lines := body ++ [m.name ++ "|out|" ++ par],
    aval := if m.aux then stem ++ ".x" else "", alines := if m.aux then body ++ [m.name ++ "|aux|" ++ par] else [] }

def mkVNet (n : Nat) (ins : List (List Nat)) (src : List Nat) (B : Nat) (ms : List Meta) : VNet n Item :=
  let m := fun (v : Fin n) => ms.getD v.val { name := "?", kind := "?", nfile := 0, pvals := [] }
  { net := mkNet n ins src B,
    srcv := fun v k =>
      if (m v).kind == "psrc" then { val := (m v).pvals.getD k "?", lines := [] }
      else if (m v).kind == "proc" then taskOf (m v) []       -- a process without ports: one task, no inputs
      else { val := s!"{(m v).name}_{k}.txt", lines := [s!"src:{(m v).name}_{k}.txt"] },
    g := fun v items => taskOf (m v) items }

/-- greedy maximal run, trying the labels in reverse order (a schedule different from `maximal`'s) -/
def maximalV {n : Nat} (vn : VNet n Item) : Nat → VSt n Item → VSt n Item
  | 0, s => s
  | fuel + 1, s =>
    match (allLbls n).reverse.findSome? (fun l => vstep vn s l) with
    | none => s
    | some s' => maximalV vn fuel s'

def showItems (l : List Item) : String :=
  "\x1d".intercalate (l.flatMap fun i =>
    [i.val ++ "\x1e" ++ "\x1e".intercalate i.lines] ++ (if i.aval.isEmpty then [] else [i.aval ++ "\x1e" ++ "\x1e".intercalate i.alines]))

/-- per process: what it has sent at the end of a maximal run; `zip=` tells whether this equals the zip
semantics `den` (it must: `c04_network_sent_is_prefix`) -/
def values (n : Nat) (ins : List (List Nat)) (src : List Nat) (B : Nat) (ms : List Meta) : String :=
  let vn := mkVNet n ins src B ms
  let bound := n * (2 * (src.foldl max 0) + 1) + 1
  let s := maximalV vn bound (vinit n Item)
  let vs := List.finRange n
  let agree := vs.all fun v => showItems (sent s v) == showItems ((List.range (s.base.f v)).map (den vn n v))
  s!"zip={agree}\x1f" ++ "\x1f".intercalate (vs.map fun v => showItems (sent s v))

end NetRun

namespace FineRun
open SciVerif.Net SciVerif.NetPorts

def parseOp (n : Nat) (s : String) : Option (FLbl n) :=
  let fin := fun (x : String) => match x.toNat? with | some k => if h : k < n then some (⟨k, h⟩ : Fin n) else none | none => none
  match s.splitOn ":" with
  | ["r", w, i] => match fin w, i.toNat? with | some w, some i => some (.recv w i) | _, _ => none
  | ["c", v] => (fin v).map .create
  | ["s", w, i] => match fin w, i.toNat? with | some w, some i => some (.send w i) | _, _ => none
  | ["f", v] => (fin v).map .forward
  | ["t", v] => (fin v).map .terminate
  | _ => none

/-- first thread whose next operation is enabled: perform it -/
def pick {n : Nat} (net : Net n) (s : FSt n) : List (List (FLbl n)) → Option (FSt n × List (List (FLbl n)))
  | [] => none
  | [] :: rest => (pick net s rest).map fun (s', r) => (s', [] :: r)
  | (l :: t) :: rest =>
    match fstep net s l with
    | some s' => some (s', t :: rest)
    | none => (pick net s rest).map fun (s', r) => (s', (l :: t) :: r)

def exec {n : Nat} (net : Net n) : Nat → FSt n → List (List (FLbl n)) → Nat → FSt n × List (List (FLbl n)) × Nat
  | 0, s, ts, k => (s, ts, k)
  | fuel + 1, s, ts, k =>
    match pick net s ts with
    | none => (s, ts, k)
    | some (s', ts') => exec net fuel s' ts' (k + 1)

/-- are the per-thread operation sequences of a real run (program order per goroutine) a run of the
channel-operation model? -/
def accept (n : Nat) (ins : List (List Nat)) (src : List Nat) (B : Nat) (threads : List (List String)) : String :=
  let net := NetRun.mkNet n ins src B
  let ts := threads.map fun t => t.filterMap (parseOp n)
  let bad := (threads.zip ts).any fun (a, b) => a.length != b.length
  if bad then "bad-ops" else
  let total := (ts.map List.length).sum
  let r := exec net (total + 1) (finit n) ts 0
  let left := r.2.1
  let vs := List.finRange n
  if left.all List.isEmpty then
    s!"accepted steps={r.2.2} term={",".intercalate (vs.map fun v => if r.1.term v then "1" else "0")} c={",".intercalate (vs.map fun v => toString (r.1.c v))}"
  else
    let idx := (left.zipIdx.filter fun (t, _) => !t.isEmpty).map fun (t, i) => s!"{i}@{(threads.getD i []).length - t.length}"
    s!"stuck steps={r.2.2} threads={",".intercalate idx}"

end FineRun

def handle (line : String) : String :=
  match line.splitOn "\t" with
  | ["sem"] => semLine
  | ["slots.search", locked, max, cores, limit] =>
    let r := SlotSearch.search (locked == "1") max.toNat! (parseNats cores) limit.toNat!
    match r.bad with
    | none => s!"none states={r.states} transitions={r.trans}"
    | some (k, path) => s!"{k} states={r.states} transitions={r.trans} sched={joinWith "," (path.map toString)}"
  | ["slots.search.src", max, cores, limit] =>
    let r := SlotSearch.search slotSem.locked max.toNat! (parseNats cores) limit.toNat!
    match r.bad with
    | none => s!"none states={r.states} transitions={r.trans}"
    | some (k, path) => s!"{k} states={r.states} transitions={r.trans} sched={joinWith "," (path.map toString)}"
  | ["task.sim", streams, acts, exit, pre, n] =>
    let c : TaskFS.Cfg := { streams := (parseNats streams).map (· != 0), beh := { acts := TaskSim.parseActs acts, exit := TaskSim.parseExit exit } }
    let preL := parseNats pre
    let preF : Nat → Option TaskFS.File := fun p => if preL.contains p then some { chunks := [99], complete := true, fresh := false, stamp := 1 } else none
    TaskSim.showSt c (TaskSim.sim taskSem c preF n.toNat!)
  | ["task.history", streams, acts, exit, pre, attempts] =>
    let c : TaskFS.Cfg := { streams := (parseNats streams).map (· != 0), beh := { acts := TaskSim.parseActs acts, exit := TaskSim.parseExit exit } }
    let preL := parseNats pre
    let preF : Nat → Option TaskFS.File := fun p => if preL.contains p then some { chunks := [99], complete := true, fresh := false, stamp := 1 } else none
    let att := (if attempts.isEmpty then [] else attempts.splitOn ",").filterMap fun a =>
      match a.splitOn ":" with
      | [n, cl] => n.toNat?.map fun n => (n, cl == "1")
      | _ => none
    TaskSim.showSt c (TaskSim.history taskSem c preF att)
  | ["task.at", streams, acts, exit, pre, pt, j] =>
    let c : TaskFS.Cfg := { streams := (parseNats streams).map (· != 0), beh := { acts := TaskSim.parseActs acts, exit := TaskSim.parseExit exit } }
    let preL := parseNats pre
    let preF : Nat → Option TaskFS.File := fun p => if preL.contains p then some { chunks := [99], complete := true, fresh := false, stamp := 1 } else none
    match TaskSim.stateAt taskSem c preF pt j.toNat! with
    | some s => TaskSim.showSt c s
    | none => "unreachable"
  | ["enc", p] => Pure.str (Str.encodeParent p.toList)
  | ["dec", p] => Pure.str (Str.decodeParent p.toList)
  | ["tmppath", p] => Pure.str (Str.tempPath p.toList)
  | ["decextra", p] => Pure.str (Str.decodeExtra p.toList)
  | ["prepend", p] => Pure.str (Str.prependParent p.toList)
  | ["validpath", p] => Pure.showB (Str.pathIsValid p.toList)
  | ["sanitize", p] => Pure.str (Str.sanitize p.toList)
  | ["splitpaths", p] => Pure.US.intercalate ((Str.splitAllPaths p.toList).map Pure.str)
  | ["mods", p, ms] => Pure.str (Str.applyPathModifiers p.toList ((Pure.lst ms).map String.toList))
  | ["placeholders", pat] =>
    Pure.US.intercalate ((Str.placeholders pat.toList).map fun ph =>
      Pure.RS.intercalate [Pure.str ph.full, Pure.str ph.typ, Pure.str ph.rest])
  | ["ports", pat] =>
    let ports := ((Fmt.discoverPorts pat.toList).map fun (n, i) => (Pure.str n, i)).toArray.qsort (fun a b => a.1 < b.1)
    Pure.US.intercalate (ports.toList.map fun (n, i) =>
      Pure.RS.intercalate [n, Pure.str i.typ, Pure.str i.ext, Pure.showB i.doStream, Pure.showB i.join, Pure.str i.joinSep])
  | ["fmtcmd", pat, ins, subs, outs, params, tags, prepend] =>
    match Fmt.formatCommand pat.toList (Pure.fmtEnv pat ins subs outs params tags prepend) with
    | some c => "OK\t" ++ Pure.str c
    | none => "FAIL"
  | ["fmtspec", pat, ins, subs, outs, params, tags, prepend] =>
    match Fmt.fmtSpec (Pure.fmtEnv pat ins subs outs params tags prepend) (Str.tokenize pat.toList) with
    | some c => "OK\t" ++ (if prepend.isEmpty then "" else prepend ++ " ") ++ Pure.str c
    | none => "FAIL"
  | ["setout", pat, ins, params, tags] =>
    match Fmt.setOutPath pat.toList { inPaths := Pure.kvs ins, params := Pure.kvs params, tags := Pure.kvs tags, outFuncs := [] } with
    | some c => "OK\t" ++ Pure.str c
    | none => "FAIL"
  | ["defpath", proc, out, ext, ins, params, tags] =>
    Pure.str (Fmt.defaultPath proc.toList out.toList ext.toList (Pure.kvs ins) (Pure.kvs params) (Pure.kvs tags))
  | ["tmpdir", name, ins, subs, params, tags] =>
    let id : Fmt.Identity := { name := name.toList, ins := Pure.kvs ins, subs := Pure.kvl subs, params := Pure.kvs params, tags := Pure.kvs tags }
    Pure.str (Fmt.pathPrefix id) ++ "\t" ++ Pure.str (Fmt.preimage id)
  | ["flatten", tree] =>
    match Rep.parseTree 10000 (tree.splitOn " ") with
    | some (t, _) =>
      let m := Report.extract t
      let ids := (Report.keys m).toArray.qsort (· < ·)
      ",".intercalate (ids.toList.map toString)
    | none => "bad-tree"
  | ["listing", sem, recs] =>
    ",".intercalate ((Report.listing (Rep.semOf sem) (Rep.parseRecs recs)).map fun r => toString r.id)
  | ["sortsem"] => repr Tie.sortSem |>.pretty
  | ["combine", keys, streams] =>
    let ks := Pure.lst keys
    let m := (Pure.lst streams).filterMap fun item => match item.splitOn Pure.RS with
      | [k, v] => some (k, if v.isEmpty then [] else v.splitOn Pure.GS)
      | _ => none
    let cols := ks.map fun k => (m.lookup k).getD []
    let out := (ks.zip (Comp.combine cols)).toArray.qsort (fun a b => a.1 < b.1)
    -- a Go map with <= 1 entries is returned as is (keys not in `keys` stay)
    Pure.US.intercalate (out.toList.map fun (k, l) => k ++ Pure.RS ++ Pure.GS.intercalate l)
  | ["split", l, bytes] =>
    let bs := (if bytes.isEmpty then [] else bytes.splitOn ",").filterMap String.toNat?
    let parts := Comp.split l.toNat! (Comp.scanLines bs [])
    Pure.US.intercalate (parts.map fun p => ",".intercalate ((Comp.render p).map toString))
  | ["scanlines", bytes] =>
    let bs := (if bytes.isEmpty then [] else bytes.splitOn ",").filterMap String.toNat?
    Pure.US.intercalate ((Comp.scanLines bs []).map fun l => ",".intercalate (l.map toString))
  | ["select", bits, cols] =>
    -- cols: US-separated columns, each GS-separated items; an item passes iff it does not contain `bits`
    let cs := (Pure.lst cols).map fun c => if c.isEmpty then [] else c.splitOn Pure.GS
    match Comp.select (fun (x : String) => (x.splitOn bits).length == 1) cs with
    | none => "FAIL"
    | some rows => Pure.US.intercalate (rows.map fun r => Pure.GS.intercalate r)
  | ["concat", files] =>
    let fs := (Pure.lst files).map fun f => (if f.isEmpty then [] else f.splitOn ",").filterMap String.toNat?
    ",".intercalate ((Comp.concatFiles fs).map toString)
  | ["concatg", files] =>
    -- files: US-separated "tag RS b1,b2,.." (tag: a number, empty = no value for the tag)
    let fs := (Pure.lst files).filterMap fun f => match f.splitOn Pure.RS with
      | [t, bs] => some (t.toNat?, (if bs.isEmpty then [] else bs.splitOn ",").filterMap String.toNat?)
      | _ => none
    let r := Comp.concatGrouped fs
    ",".intercalate (r.1.map toString) ++ Pure.US ++
      Pure.US.intercalate (r.2.map fun (t, b) => toString t ++ Pure.RS ++ ",".intercalate (b.map toString))
  | ["proc.sem"] => s!"appendTail={procSem.appendTail};waitHead={procSem.waitHead};dequeueHead={procSem.dequeueHead};forwardOnDequeueOnly={procSem.forwardOnDequeueOnly}"
  | ["proc.search", n, depth] =>
    let r := ProcSearch.dfs procSem n.toNat! Proc.init 0 [] depth.toNat!
    match r.1 with
    | none => s!"none explored={r.2}"
    | some p => s!"witness explored={r.2} labels=" ++ ",".intercalate p
  | ["plan", n, edges, inPorts, hasOut, selfFed, paramPorts, targets] =>
    let es := (if edges.isEmpty then [] else edges.splitOn ",").filterMap fun e =>
      match e.splitOn ":" with
      | [a, b, c] => match a.toNat?, b.toNat?, c.toNat? with | some a, some b, some c => some (a, b, c) | _, _, _ => none
      | _ => none
    let sf := (if selfFed.isEmpty then [] else selfFed.splitOn ",").filterMap fun e =>
      match e.splitOn ":" with
      | [a, b] => match a.toNat?, b.toNat? with | some a, some b => some (a, b) | _, _ => none
      | _ => none
    let pp := (if paramPorts.isEmpty then [] else paramPorts.splitOn ",").filterMap fun e =>
      match e.splitOn ":" with
      | [a, b] => match a.toNat?, b.toNat? with | some a, some b => some (a, b) | _, _ => none
      | _ => none
    let wf : Graph.Wf := { n := n.toNat!, edges := es, inPorts := parseNats inPorts, hasOut := (parseNats hasOut).map (· != 0), selfFed := sf, paramPorts := pp }
    let ts := if targets == "-" then none else some (parseNats targets)
    match Graph.plan runSem wf ts with
    | .refused => "refused"
    | .recursion => "recursion"
    | .started gs d b =>
      let g := (gs.toArray.qsort (· < ·)).toList
      s!"started gs={",".intercalate (g.map toString)} driver={match d with | some x => toString x | none => "sink"} sink={b}"
  | ["net.final", n, ins, src, b] =>
    let inl := (if ins.isEmpty then [] else ins.splitOn ";").map fun p => if p == "-" then [] else parseNats p
    NetRun.final n.toNat! inl (parseNats src) b.toNat!
  | ["net.values", n, ins, src, b, metas] =>
    let inl := (if ins.isEmpty then [] else ins.splitOn ";").map fun p => if p == "-" then [] else parseNats p
    let ms := (if metas.isEmpty then [] else metas.splitOn ";").filterMap fun m => match m.splitOn ":" with
      | [nm, kind, nf, pv] => some ({ name := nm, kind := kind, nfile := nf.toNat!, pvals := if pv.isEmpty then [] else pv.splitOn "," } : NetRun.Meta)
      | [nm, kind, nf, pv, takes, aux] => some ({ name := nm, kind := kind, nfile := nf.toNat!, pvals := if pv.isEmpty then [] else pv.splitOn ",", takes := takes, aux := aux == "1" } : NetRun.Meta)
      | _ => none
    NetRun.values n.toNat! inl (parseNats src) b.toNat! ms
  | ["fine.accept", n, ins, src, b, threads] =>
    let inl := (if ins.isEmpty then [] else ins.splitOn ";").map fun p => if p == "-" then [] else parseNats p
    let ts := (if threads.isEmpty then [] else threads.splitOn ";").map fun t => if t.isEmpty then [] else t.splitOn ","
    FineRun.accept n.toNat! inl (parseNats src) b.toNat! ts
  | ["run.sem"] => s!"skipSelf={runSem.skipSelf};driverRemovedFromArg={runSem.driverRemovedFromArg};singleProcKept={runSem.singleProcKept};driverReadyChecked={runSem.driverReadyChecked};sinkWaited={runSem.sinkWaited};readyBeforeStart={runSem.readyBeforeStart};mergesFile={runSem.mergesFile};mergesParam={runSem.mergesParam}"
  | ["chan.search", b, streams] =>
    let ss := (if streams.isEmpty then [] else streams.splitOn ";").map parseNats
    let r := ChanSearch.explore b.toNat! ss (Chan.init ss) []
    match r.2 with
    | none => s!"ok states={r.1.length}"
    | some w => s!"bad states={r.1.length} {w}"
  | ["createtasks", ports] =>
    let ps := (if ports.isEmpty then [] else ports.splitOn ";").map fun p => if p == "-" then [] else parseNats p
    ";".intercalate ((Chan.createTasks 1000 ps).map fun t => ",".intercalate (t.map toString))
  | ["racy.sites"] => ",".intercalate racySites
  | ["discipline"] => s!"r1={r1};r2={r2};r4={r4};r5={r5};r6={r6}"
  | ["task.c01search"] =>
    match TaskSim.c01Search taskSem with
    | none => "none"
    | some w => "witness " ++ w
  | _ => "bad-request"

partial def loop (h : IO.FS.Stream) (out : IO.FS.Stream) : IO Unit := do
  let line ← h.getLine
  if line.isEmpty then return ()
  let l := if line.endsWith "\n" then (line.dropEnd 1).toString else line
  out.putStrLn (handle l)
  out.flush
  loop h out

def main : IO Unit := do
  loop (← IO.getStdin) (← IO.getStdout)
